"""EX-E: configuration engine (properties C15 and C16), harness binary `exe`.

C15: every family enumerates ALL sequences of at most k items over a fixed
item alphabet (lines of a configuration file, tokens of an environment
variable, items of a setter string) in shortlex order, which is the global
case index used for sharding (index % n) and for resuming after a crash.

C16: product of option masks/values, server sets, setters, system
configurations and reinit points (see the rule text).
"""

_T = ['bin/exe']


def _job(name, family, quick=None, thorough=None, witnesses=(), min_outcomes=2, tiers=('quick', 'thorough'), deadline=(120, 900), shards=16, max_restarts=60):
    return {
        'name': name, 'bin': 'exe', 'family': family, 'tiers': tiers, 'shards': shards,
        'args': {'quick': quick or {}, 'thorough': thorough or {}},
        'require_witnesses': {'*': list(witnesses)},
        'min_outcomes': min_outcomes,
        'resume': 'index',
        'deadline': {'quick': deadline[0], 'thorough': deadline[1]},
        # every crashing case costs one restart of its shard (the case becomes a violation, the shard resumes behind it)
        'max_restarts': max_restarts,
    }


_C15_RULE = (
    'bounded-exhaustive enumeration: a case is one input built from a sequence of items of a fixed alphabet (resolv.conf / nsswitch.conf / '
    'netsvc.conf / svc.conf / host.conf / hosts / HOSTALIASES lines; RES_OPTIONS tokens x LOCALDOMAIN values; ares_set_sortlist and '
    'ares_set_servers_csv / ares_set_servers_ports_csv items); ALL sequences up to the length printed in coverage.jobs[].bound are executed '
    '(shortlex order = case index) plus whole-input variants (CRLF line ends, no final newline, tab separators, trailing comma); every case runs '
    'the real ares_init_options()/setter in a virtual environment (files, environment, hostname, interface table, clock, random tape, inline '
    'threads) and is checked for: return within the watchdog, ASan/UBSan silence, empty allocator ledger after ares_destroy, documented ranges of '
    'the effective configuration, agreement with the documented effect annotated on every item (independent reference, undocumented effects are '
    'counted not asserted), equality with the configuration of the same input without its comment/junk/malformed items (metamorphic), and '
    'unchanged configuration after ares_reinit() on unchanged files; transitions = inputs evaluated; states = distinct observations (canonical '
    'dump of the effective configuration + probe results), summed over shards; distinct_nontrivial = distinct (status, set of fields changed '
    'from the default, probe hit counts) tuples summed over jobs; executions = library runs incl. metamorphic partners and minimisation')

_C15_ASSUME = [
    'Unix file based system configuration (the #else branch of ares_init_by_sysconfig): /etc/resolv.conf, /etc/nsswitch.conf, /etc/netsvc.conf, /etc/svc.conf',
    'files are served through interposed fopen()/stat(); interface names through interposed if_nametoindex()/if_indextoname() (lo=1, eth0=2, eth1=3)',
    'allocation never fails (allocation failure is property C14)',
    'the effective configuration is read through ares_get_servers_csv()/ares_get_servers_ports() and, where no public getter exists '
    '(ndots, timeout, tries, rotate, flags, lookups, domains, sortlist, link-local scope), from the private channel structure',
    'HOSTALIASES is exercised through ares_lookup_hostaliases() (the parser entry point used by ares_search and ares_gethostbyname)',
    'item alphabets and bounds as printed per job in coverage.jobs[].bound',
]

PLANS = {
    'C15': {
        'level': 'model_checking',
        'rule': _C15_RULE,
        'assumptions': _C15_ASSUME,
        'targets': _T,
        'deadline': {'quick': 280, 'thorough': 2300},
        'jobs': [
            _job('resolvconf', 'resolvconf', quick={'k': 3}, thorough={'k': 4},
                 witnesses=['init_ok', 'junk_line_ignored', 'metamorphic_pairs', 'option_timeout_zero', 'server_v6_linklocal', 'reference_agreed'],
                 min_outcomes=20, deadline=(150, 1200)),
            _job('resolvconf-deep', 'resolvconf-deep', thorough={'k': 5}, tiers=('thorough',),
                 witnesses=['init_ok', 'junk_line_ignored', 'metamorphic_pairs', 'option_timeout_zero', 'reference_agreed'], min_outcomes=10,
                 deadline=(0, 600)),
            _job('otherfiles', 'otherfiles', quick={'k': 3}, thorough={'k': 5},
                 witnesses=['init_ok', 'junk_line_ignored', 'metamorphic_pairs', 'reference_agreed'], min_outcomes=2, deadline=(60, 300)),
            _job('hosts', 'hosts', quick={'k': 3}, thorough={'k': 5},
                 witnesses=['init_ok', 'junk_line_ignored', 'metamorphic_pairs', 'hosts_entry_found', 'reference_agreed'], min_outcomes=8, deadline=(60, 600)),
            _job('aliases', 'aliases', quick={'k': 3}, thorough={'k': 5},
                 witnesses=['init_ok', 'junk_line_ignored', 'metamorphic_pairs', 'alias_found', 'reference_agreed'], min_outcomes=3, deadline=(60, 300)),
            _job('envopts', 'envopts', quick={'k': 3}, thorough={'k': 4},
                 witnesses=['init_ok', 'junk_line_ignored', 'metamorphic_pairs', 'option_timeout_zero', 'env_overrides_file', 'reference_agreed'],
                 min_outcomes=10, deadline=(60, 600)),
            _job('strings', 'strings', quick={'k': 2}, thorough={'k': 4},
                 witnesses=['init_ok', 'setter_ok', 'setter_error', 'csv_roundtrip', 'server_v6_linklocal'], min_outcomes=2, deadline=(60, 600)),
        ],
    },
    'C16': {
        'level': 'model_checking',
        'rule': (
            'bounded-exhaustive enumeration of configuration scenarios: family options = ares_init() and every set of at most 2 (quick) / 3 (thorough) distinct '
            'option bits out of the 23 accepted by ares_init_options() (ARES_OPT_EVENT_THREAD excluded) with boundary values per bit, x 3 system configurations x 3 '
            'reinit targets; family servers = every list of 1..3 servers over {IPv4, IPv6, link-local IPv6 + interface} x {default ports, equal non-default, '
            'differing UDP/TCP} through every setter x channel-wide port options; family userwins = every combination of the overridable settings supplied through '
            'options or setters x 2 system configurations that set every overridable field to another value x 3 reinit targets; every scenario runs the real '
            'ares_init_options / setters / ares_save_options / ares_dup / ares_get_servers_csv / ares_reinit in a virtual environment and compares the effective '
            'configuration (private channel fields + ares_get_servers_csv + ares_get_servers_ports) with a reference model (user value, else system value, else '
            'default), checks save->init->save as a fixed point of the options structure, equality of original and ares_dup copy, csv->set->csv, user settings '
            'unchanged after ares_reinit, and an empty allocator ledger; transitions = scenarios; states = distinct effective configurations (summed over shards); '
            'distinct_nontrivial = distinct (status, reinit target, number of findings) tuples summed over jobs'),
        'assumptions': [
            'Unix file based system configuration; files, environment, hostname and interface table are virtual (see C15)',
            'ARES_OPT_EVENT_THREAD is excluded (needs a running thread); ARES_OPT_SOCK_STATE_CB is checked as a pass-through value only',
            'ARES_OPT_TIMEOUT and ARES_OPT_TIMEOUTMS name the same structure field and are never combined; values documented as "use the default" '
            '(<= 0, NULL) count as not supplied',
            'after a reinit to a configuration that no longer mentions a field (timeout, tries, domains, lookups, sortlist, servers) the documentation does not '
            'say whether the previous system value stays: counted (counters reinit_field_not_in_new_config:*), not asserted',
            'a link-local server installed through ares_set_servers / ares_set_servers_ports has no interface and cannot be carried by the csv text '
            '(documented format): counted, not asserted',
            'save->init->save is asserted for what struct ares_options can express (IPv4 servers, channel-wide ports)',
            'allocation never fails (C14)',
        ],
        'targets': _T,
        'deadline': {'quick': 280, 'thorough': 2300},
        'jobs': [
            _job('options', 'options', quick={'bits': 2}, thorough={'bits': 3},
                 witnesses=['user_setting_preserved', 'system_value_applied', 'default_applied', 'fixedpoint_checked', 'dup_checked', 'csv_roundtrip', 'reinit_checked', 'init_error'],
                 min_outcomes=3, deadline=(150, 1500)),
            _job('servers', 'servers',
                 witnesses=['user_setting_preserved', 'fixedpoint_checked', 'dup_checked', 'csv_roundtrip', 'reinit_checked', 'server_v6_linklocal'],
                 min_outcomes=1, deadline=(200, 400)),
            _job('userwins', 'userwins',
                 witnesses=['user_setting_preserved', 'system_value_applied', 'fixedpoint_checked', 'dup_checked', 'csv_roundtrip', 'reinit_checked', 'servers_set_while_reload_was_parsing'],
                 min_outcomes=3, deadline=(100, 400)),
        ],
    },
}
